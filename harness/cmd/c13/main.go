// C13 — tokens are bound to the identity and the kind they were minted for.
//
// Reference model (independent of the library's AAD / cache-key / registry-key
// renderings): identity = anonymous | (domain, principal), compared as a pair;
// a token of kind K minted for identity A is acceptable only when presented
// in slot K by an identity equal to A. Three arms:
//
//	matrix   every ordered identity pair x {cursor, call, sticky} through the
//	         verif seal/open exports (the production seal/open code), plus every
//	         kind-in-other-slot combination raw / re-versioned / re-encoded;
//	http     selected pairs (incl. those whose cache keys or registry keys
//	         collide although the identities differ) through the real routes
//	         with cache sizes 0 / 1 / 4096: stream continuations, sticky-session
//	         resume and DELETE, sticky tokens in cursor/call slots and cursor /
//	         call tokens in the VGI-Session header;
//	history  the same presentation repeated at random points of random
//	         interleaved traffic from other identities: its accept/refuse
//	         decision must never change and must equal the model's.
package main

import (
	"encoding/base64"
	"fmt"
	"math/rand/v2"
	"net/http"
	"net/http/httptest"
	"sort"
	"strings"
	"time"

	"github.com/Query-farm/vgi-rpc-go/vgirpc"

	"verif/harness/internal/mon"
	"verif/harness/internal/we"
)

var domains = []string{"", "bearer", "jwt", "a", "ab", "a b", "дом", "x|y", "1:", "anonymous", strings.Repeat("d", 300), "\xff\xfe"}
var principals = []string{"", "anonymous", "\x00anonymous", "a\x00b", "b", " b", "alice", "üñí", strings.Repeat("p", 300), strings.Repeat("q", 70000), "\xff", "\x01", "bearer"}

func fixedIdentities() []we.Identity {
	ids := []we.Identity{we.Anon}
	for _, d := range domains {
		for _, p := range principals {
			ids = append(ids, we.Auth(d, p))
		}
	}
	return ids
}

const domAlpha = "ab |:\x01/é.-_"
const prinAlpha = "ab\x00 |:\x01é"

func randIdentity(rng *rand.Rand) we.Identity {
	if rng.IntN(12) == 0 {
		return we.Anon
	}
	gen := func(alpha string, maxLen int) string {
		rs := []rune(alpha)
		n := rng.IntN(maxLen + 1)
		var sb strings.Builder
		for i := 0; i < n; i++ {
			sb.WriteRune(rs[rng.IntN(len(rs))])
		}
		return sb.String()
	}
	d := gen(domAlpha, 4)
	p := gen(prinAlpha, 5)
	switch rng.IntN(10) {
	case 0:
		p = "anonymous"
	case 1:
		d = ""
	}
	return we.Auth(d, p)
}

var kinds = []string{"cursor", "call", "sticky"}

var key = we.DefaultKey

func seal(kind string, id we.Identity, created int64, n int) ([]byte, error) {
	a := id.AuthContext()
	callID := fmt.Sprintf("%032x", n)
	switch kind {
	case "cursor":
		return vgirpc.VerifSealCursorToken(key, a, vgirpc.VerifCursorData{CreatedAt: created, CallID: callID, State: &we.ExchState{Origin: "exch", Tag: "m", Sum: int64(n)}, Method: "exch"})
	case "call":
		return vgirpc.VerifSealCallToken(key, a, vgirpc.VerifCallData{CreatedAt: created, CallID: callID, StreamID: callID})
	default:
		var sid [12]byte
		copy(sid[:], callID)
		s, err := vgirpc.VerifSealStickyToken(key, a, "srv-matrix", sid, created+3600, created)
		return []byte(s), err
	}
}

func open(kind string, id we.Identity, tok []byte) error {
	a := id.AuthContext()
	switch kind {
	case "cursor":
		_, err := vgirpc.VerifOpenCursorToken(key, a, tok)
		return err
	case "call":
		_, err := vgirpc.VerifOpenCallToken(key, a, tok)
		return err
	default:
		_, _, _, err := vgirpc.VerifOpenStickyToken(key, a, string(tok))
		return err
	}
}

func safeOpen(kind string, id we.Identity, tok []byte) (err error, panicked string) {
	defer func() {
		if rv := recover(); rv != nil {
			panicked = fmt.Sprint(rv)
		}
	}()
	return open(kind, id, tok), ""
}

func decodeAny(tok []byte) []byte {
	for _, enc := range []*base64.Encoding{base64.StdEncoding, base64.RawURLEncoding, base64.URLEncoding, base64.RawStdEncoding} {
		if raw, err := enc.DecodeString(string(tok)); err == nil {
			return raw
		}
	}
	return nil
}

// spellings of a token's raw bytes for presentation in another slot.
func spellings(tok []byte, targetVersion byte) map[string][]byte {
	raw := decodeAny(tok)
	out := map[string][]byte{"as-is": tok}
	if raw == nil {
		return out
	}
	rv := append([]byte(nil), raw...)
	rv[0] = targetVersion
	out["std"] = []byte(base64.StdEncoding.EncodeToString(raw))
	out["url-raw"] = []byte(base64.RawURLEncoding.EncodeToString(raw))
	out["url-padded"] = []byte(base64.URLEncoding.EncodeToString(raw))
	out["reversioned-std"] = []byte(base64.StdEncoding.EncodeToString(rv))
	out["reversioned-url-raw"] = []byte(base64.RawURLEncoding.EncodeToString(rv))
	out["reversioned-url-padded"] = []byte(base64.URLEncoding.EncodeToString(rv))
	return out
}

func sortedNames(m map[string][]byte) []string {
	out := make([]string, 0, len(m))
	for k := range m {
		out = append(out, k)
	}
	sort.Strings(out)
	return out
}

func versionOf(kind string) byte {
	c, k, s := vgirpc.VerifTokenVersions()
	switch kind {
	case "cursor":
		return c
	case "call":
		return k
	}
	return s
}

func collisionClass(a, b we.Identity) string {
	if a.Key() == b.Key() {
		return ""
	}
	ca, cb := a.AuthContext(), b.AuthContext()
	if vgirpc.VerifCallCacheIdentity(ca) == vgirpc.VerifCallCacheIdentity(cb) {
		return "cache-key-collision"
	}
	return ""
}

func main() {
	r := mon.Start("C13")
	defer r.Finish()
	r.SetRule("matrix: ordered pairs over anonymous + 10 NUL-free domains x 11 principals (incl. '', 'anonymous', NUL-bearing, 300-byte, unicode) — thorough adds random identities — x {cursor, call, sticky}, sealed for A and opened as B through the production seal/open; kind-in-slot: 6 (kind,slot) pairs x 7 spellings x 3 created_at low bytes; http: selected pairs x cache {0,1,4096} x {stream continuation (3 forms), sticky resume, sticky DELETE} and 2x7 slot/spelling swaps; history: random interleavings with repeated fixed probes. distinct = (arm, identities, kind, spelling/cache/history shape); trivial = none")
	r.Require("matrix:same-identity-opens", "matrix:other-identity-refused", "matrix:anon-vs-auth", "matrix:domain-differs", "matrix:principal-differs",
		"matrix:cache-key-collision-pair", "kind:wrong-slot-refused", "kind:same-aad-reversioned",
		"http:control-accepted", "http:other-identity-refused", "http:cache-key-collision-pair", "http:sticky-control", "http:sticky-other-refused", "http:sticky-delete-other-noop",
		"http:sticky-in-cursor-slot", "http:cursor-in-session-header", "history:probe-repeated", "history:evicted-then-accepted", "cache:0", "cache:1", "cache:4096",
		"concurrent-cross-identity-lookups", "concurrent:b-overlapped-a-lookup", "concurrent:equal-key-length-pair", "concurrent:anon-vs-9-char-auth", "concurrent:quiet-server-refused")
	r.Assume("identity equality is decided by the harness as anonymous | (domain, principal) pair equality; domains are NUL-free as the property's quantifier says")
	r.Assume("matrix arm observes the production sealToken/openToken/sealSessionToken/openSessionToken through verif exports; http and history arms observe the real routes")

	now := time.Now().Unix()
	ids := fixedIdentities()

	// ---- matrix arm ------------------------------------------------------
	nRandom := r.N(40, 600) // extra random identities in thorough: (121+420)^2*3 ~ 880k opens
	mrng := r.Rand(1)
	all := append([]we.Identity(nil), ids...)
	for i := 0; i < nRandom; i++ {
		all = append(all, randIdentity(mrng))
	}
	var nPairs int64
	for ki, kind := range kinds {
		toks := make([][]byte, len(all))
		for i, a := range all {
			t, err := seal(kind, a, now, i+ki*100000)
			if err != nil {
				r.Fatal("seal %s for %s: %v", kind, a, err)
			}
			toks[i] = t
		}
		for i, a := range all {
			for j, b := range all {
				err, pan := safeOpen(kind, b, toks[i])
				same := a.Key() == b.Key()
				nPairs++
				sig := ""
				if i < len(ids) && j < len(ids) {
					sig = fmt.Sprintf("m|%s|%d|%d", kind, i, j)
				} else {
					sig = fmt.Sprintf("m|%s|%s|%s", kind, a.Key(), b.Key())
				}
				r.Case(sig)
				switch {
				case pan != "":
					r.Violation("matrix:panic:"+kind, fmt.Sprintf("opening a %s token minted for %s as %s panicked: %s", kind, a, b, pan),
						map[string]any{"kind": kind, "minted_for": a, "presented_by": b, "token": string(toks[i])})
				case same && err != nil:
					r.Fatal("%s token minted for %s does not open for the same identity: %v", kind, a, err)
				case same:
					r.Class("matrix:same-identity-opens")
				case err == nil:
					cls := "principal-differs"
					if a.Anonymous != b.Anonymous {
						cls = "anon-vs-auth"
					} else if a.Domain != b.Domain {
						cls = "domain-differs"
					}
					if c := collisionClass(a, b); c != "" {
						cls += ":" + c
					}
					r.Violation(fmt.Sprintf("matrix:accepted:%s:%s", kind, cls),
						fmt.Sprintf("%s token minted for %s opens for the different identity %s", kind, a, b),
						map[string]any{"kind": kind, "minted_for": a, "presented_by": b, "token": string(toks[i]), "key_b64": base64.StdEncoding.EncodeToString(key),
							"aad_minted": fmt.Sprintf("%q", vgirpc.VerifCursorAAD(a.AuthContext())), "aad_presented": fmt.Sprintf("%q", vgirpc.VerifCursorAAD(b.AuthContext()))})
				default:
					r.Class("matrix:other-identity-refused")
					switch {
					case a.Anonymous != b.Anonymous:
						r.Class("matrix:anon-vs-auth")
					case a.Domain != b.Domain:
						r.Class("matrix:domain-differs")
					default:
						r.Class("matrix:principal-differs")
					}
					if collisionClass(a, b) != "" {
						r.Class("matrix:cache-key-collision-pair")
					}
				}
			}
		}
	}
	r.Count("matrix.pairs_opened", nPairs)

	// kind-in-slot at the seal/open level, same identity.
	kindIDs := []we.Identity{we.Anon, we.Auth("bearer", "alice"), we.Auth("", "anonymous")}
	for _, id := range kindIDs {
		for _, lowByte := range []int64{0x00, 0x01, 0x5a} {
			created := (now &^ 0xff) | lowByte // low byte of created_at is the sticky plaintext's first byte = codec tag position of a cursor
			for ki, from := range kinds {
				tok, err := seal(from, id, created, 777+ki)
				if err != nil {
					r.Fatal("seal: %v", err)
				}
				for _, slot := range kinds {
					if slot == from {
						continue
					}
					sps := spellings(tok, versionOf(slot))
					for _, name := range sortedNames(sps) {
						sp := sps[name]
						err, pan := safeOpen(slot, id, sp)
						r.Case(fmt.Sprintf("k|%s|%s|%s|%s|%d", id.Key(), from, slot, name, lowByte))
						if (from == "sticky" && slot == "cursor" || from == "cursor" && slot == "sticky") && strings.HasPrefix(name, "reversioned") {
							r.Class("kind:same-aad-reversioned") // shares the AAD: only the payload layout stands between them
						}
						if pan != "" {
							r.Violation(fmt.Sprintf("kind:panic:%s-as-%s", from, slot), fmt.Sprintf("%s token (%s) opened as %s panicked: %s", from, name, slot, pan),
								map[string]any{"identity": id, "from": from, "slot": slot, "spelling": name, "token": string(sp)})
						} else if err == nil {
							r.Violation(fmt.Sprintf("kind:accepted:%s-as-%s:%s", from, slot, strings.Split(name, "-")[0]),
								fmt.Sprintf("a %s token (%s) opens as a %s token for %s", from, name, slot, id),
								map[string]any{"identity": id, "from": from, "slot": slot, "spelling": name, "token": string(sp), "created_at": created})
						} else {
							r.Class("kind:wrong-slot-refused")
						}
					}
				}
			}
		}
	}

	// ---- http arm --------------------------------------------------------
	httpArm(r, now)

	// ---- history arm -----------------------------------------------------
	historyArm(r)

	// ---- concurrent arm ---------------------------------------------------
	concurrentArm(r)
}

type pairT struct{ A, B we.Identity }

func httpPairs(r *mon.Run) []pairT {
	ps := []pairT{
		{we.Anon, we.Auth("", "anonymous")}, // cache keys + registry keys collide
		{we.Auth("", "anonymous"), we.Anon},
		{we.Anon, we.Auth("", "")},
		{we.Anon, we.Auth("bearer", "alice")},
		{we.Auth("bearer", "alice"), we.Anon},
		{we.Auth("bearer", "alice"), we.Auth("jwt", "alice")},
		{we.Auth("bearer", "alice"), we.Auth("bearer", "bob")},
		{we.Auth("a", "b"), we.Auth("ab", "")},
		{we.Auth("a", " b"), we.Auth("a ", "b")},
		{we.Auth("", "\x00anonymous"), we.Anon},
		{we.Auth("x", "a\x00b"), we.Auth("x", "a")},
		{we.Auth("bearer", ""), we.Auth("", "bearer")},
		{we.Auth("bearer", "alice"), we.Auth("bearer", "alice")}, // same identity (control pair)
		{we.Anon, we.Anon},
	}
	rng := r.Rand(2)
	for i := 0; i < r.N(120, 1500); i++ {
		ps = append(ps, pairT{randIdentity(rng), randIdentity(rng)})
	}
	return ps
}

func stateRan(o we.Obs) bool {
	for _, e := range o.Events {
		if e.Actor == "state" && (e.Kind == "produce" || e.Kind == "exchange" || e.Kind == "oncancel") {
			return true
		}
	}
	return false
}

func sessionSeen(o we.Obs) string {
	for _, e := range o.Events {
		if e.Actor == "state" && e.Kind == "use_session" {
			if ev, ok := e.Payload.(we.Evt); ok {
				return ev.Origin
			}
		}
	}
	return ""
}

func del(in *we.Instance, id we.Identity, token string) int {
	req := httptest.NewRequest(http.MethodDelete, "/__session__", nil)
	if id.Anonymous {
		req.Header.Set("X-T-Auth", "anon")
	} else {
		req.Header.Set("X-T-Auth", "auth")
		req.Header.Set("X-T-Domain", base64.StdEncoding.EncodeToString([]byte(id.Domain)))
		req.Header.Set("X-T-Principal", base64.StdEncoding.EncodeToString([]byte(id.Principal)))
	}
	req.Header.Set("VGI-Session", token)
	rec := httptest.NewRecorder()
	in.H.ServeHTTP(rec, req)
	return rec.Code
}

func httpArm(r *mon.Run, now int64) {
	log := mon.NewLog()
	methods := []we.MethodKind{we.MethodByName("exch"), we.MethodByName("prod"), we.MethodByName("dyne"), we.MethodByName("dynp")}
	for _, cache := range []int{0, 1, 4096} {
		in := we.NewInstance(log, fmt.Sprintf("c%d", cache), we.Opt{CacheEntries: cache, Sticky: true, TTL: time.Hour})
		r.Class(fmt.Sprintf("cache:%d", cache))
		for pi, p := range httpPairs(r) {
			m := methods[pi%len(methods)]
			same := p.A.Key() == p.B.Key()
			col := collisionClass(p.A, p.B)
			tag := fmt.Sprintf("c%d-p%d", cache, pi)
			// A mints a stream; B mints its own (so B holds a valid call token of its own).
			oa := in.Init(m.Name, p.A, 4, tag+"-A", nil)
			ob := in.Init(m.Name, p.B, 4, tag+"-B", nil)
			if !oa.Accepted() || !ob.Accepted() {
				r.Fatal("init refused: %s / %s", oa.Refusal(), ob.Refusal())
			}
			ctl := in.Continue(we.ContFor(m, p.A, oa.Cursor, oa.Call, 2))
			if !ctl.Accepted() || !stateRan(ctl) {
				r.Fatal("control: %s continuing its own %s stream refused: %s", p.A, m.Name, ctl.Refusal())
			}
			r.Class("http:control-accepted")
			forms := []struct {
				name         string
				cursor, call []byte
			}{
				{"cursor+call", oa.Cursor, oa.Call},
				{"cursor-only", oa.Cursor, nil},
				{"A-cursor+B-call", oa.Cursor, ob.Call},
				{"B-cursor+A-call", ob.Cursor, oa.Call}, // B's cursor is B's: judged on the cursor's owner (B) -> see below
			}
			for _, f := range forms {
				o := in.Continue(we.ContFor(m, p.B, f.cursor, f.call, 2))
				r.Case(fmt.Sprintf("h|%d|%d|%s|%s", cache, pi, m.Name, f.name))
				if o.Panic != "" {
					r.Violation("http:panic:"+f.name, fmt.Sprintf("%s presenting %s of %s's %s stream: ServeHTTP panicked: %s", p.B, f.name, p.A, m.Name, o.Panic),
						map[string]any{"minted_for": p.A, "presented_by": p.B, "form": f.name, "cache": cache, "cursor": string(f.cursor), "call": string(f.call), "obs": o})
					continue
				}
				if f.name == "B-cursor+A-call" {
					// B resumes B's own stream; A's call token (if consulted) is a foreign
					// token. Either refusal or (on a hit) acceptance of B's OWN stream is
					// fine — but what runs must be B's state, never A's.
					for _, e := range o.Events {
						if ev, ok := e.Payload.(we.Evt); ok && e.Actor == "state" && ev.Tag == tag+"-A" && !same {
							r.Violation("http:foreign-state-ran:"+f.name, fmt.Sprintf("%s ran %s's state", p.B, p.A), map[string]any{"obs": o})
						}
					}
					continue
				}
				if same {
					continue
				}
				if o.Accepted() || stateRan(o) {
					cls := "other-identity"
					if col != "" {
						cls = col
					}
					r.Violation(fmt.Sprintf("http:accepted:stream:%s:%s", f.name, cls),
						fmt.Sprintf("%s stream tokens minted for %s (%s) accepted from %s with cache size %d: status %d rows %v events %s", m.Name, p.A, f.name, p.B, cache, o.Status, o.Rows, o.EventKinds()),
						map[string]any{"minted_for": p.A, "presented_by": p.B, "form": f.name, "cache": cache, "method": m.Name, "cursor": string(f.cursor), "call": string(f.call), "obs": o})
					continue
				}
				r.Class("http:other-identity-refused")
				if col != "" {
					r.Class("http:cache-key-collision-pair")
				}
			}

			// sticky sessions
			so := in.Unary("open_session", p.A, 1, tag, map[string]string{"VGI-Session-Accept": "true"})
			if !so.Accepted() || so.Session == "" {
				r.Fatal("open_session refused for %s: %s (session %q)", p.A, so.Refusal(), so.Session)
			}
			tokA := so.Session
			ownerWant := p.A.Key() + "#" + tag
			if o := in.Unary("use_session", p.A, 0, tag, map[string]string{"VGI-Session": tokA}); !o.Accepted() || sessionSeen(o) != ownerWant {
				r.Fatal("sticky control: %s cannot resume its own session: %s seen=%q", p.A, o.Refusal(), sessionSeen(o))
			}
			r.Class("http:sticky-control")
			if !same {
				o := in.Unary("use_session", p.B, 0, tag, map[string]string{"VGI-Session": tokA})
				r.Case(fmt.Sprintf("s|%d|%d|resume", cache, pi))
				if o.Panic != "" || o.Accepted() || sessionSeen(o) != "" {
					r.Violation("http:accepted:sticky-resume", fmt.Sprintf("sticky session token minted for %s resumed by %s: %s, handler saw session %q", p.A, p.B, o.Refusal(), sessionSeen(o)),
						map[string]any{"minted_for": p.A, "presented_by": p.B, "token": tokA, "obs": o})
				} else {
					r.Class("http:sticky-other-refused")
				}
				code := del(in, p.B, tokA)
				after := in.Unary("use_session", p.A, 0, tag, map[string]string{"VGI-Session": tokA})
				r.Case(fmt.Sprintf("s|%d|%d|delete", cache, pi))
				if code == http.StatusNoContent || !after.Accepted() || sessionSeen(after) != ownerWant {
					r.Violation("http:accepted:sticky-delete", fmt.Sprintf("DELETE /__session__ by %s with %s's token answered %d; owner afterwards: %s seen=%q", p.B, p.A, code, after.Refusal(), sessionSeen(after)),
						map[string]any{"minted_for": p.A, "presented_by": p.B, "token": tokA, "delete_status": code, "owner_after": after})
				} else {
					r.Class("http:sticky-delete-other-noop")
				}
			}

			// kind swaps through the routes (same identity A; first pairs only — they do not depend on B)
			if pi < 6 {
				cv, kv, sv := vgirpc.VerifTokenVersions()
				sps := spellings([]byte(tokA), cv)
				for _, name := range sortedNames(sps) {
					sp := sps[name]
					o := in.Continue(we.ContFor(m, p.A, sp, oa.Call, 2))
					judgeSwap(r, "sticky-in-cursor-slot", name, p.A, o, sp)
					r.Class("http:sticky-in-cursor-slot")
				}
				sps = spellings([]byte(tokA), kv)
				for _, name := range sortedNames(sps) {
					sp := sps[name]
					o := in.Continue(we.ContFor(m, p.A, oa.Cursor, sp, 2))
					if cache == 0 { // only then is the call token consulted
						judgeSwap(r, "sticky-in-call-slot", name, p.A, o, sp)
					}
				}
				for _, src := range []struct {
					n string
					t []byte
				}{{"cursor", oa.Cursor}, {"call", oa.Call}} {
					sps := spellings(src.t, sv)
					for _, name := range sortedNames(sps) {
						sp := sps[name]
						o := in.Unary("use_session", p.A, 0, tag, map[string]string{"VGI-Session": string(sp)})
						r.Case(fmt.Sprintf("x|%d|%d|%s-in-session|%s", cache, pi, src.n, name))
						if o.Panic != "" || o.Accepted() || sessionSeen(o) != "" {
							r.Violation(fmt.Sprintf("http:accepted:%s-in-session-header:%s", src.n, strings.Split(name, "-")[0]),
								fmt.Sprintf("a %s token (%s) in the VGI-Session header was not refused: %s panic=%q", src.n, name, o.Refusal(), o.Panic),
								map[string]any{"identity": p.A, "token": string(sp), "obs": o})
						}
						r.Class("http:cursor-in-session-header")
					}
				}
			}
		}
	}
	_ = now
}

func judgeSwap(r *mon.Run, what, spelling string, id we.Identity, o we.Obs, tok []byte) {
	r.Case("x|" + what + "|" + spelling + "|" + id.Key() + "|" + mon.Hash(string(tok)))
	if o.Panic != "" || o.Accepted() || stateRan(o) {
		r.Violation(fmt.Sprintf("http:accepted:%s:%s", what, strings.Split(spelling, "-")[0]),
			fmt.Sprintf("%s (%s) was not refused: %s panic=%q events=%s", what, spelling, o.Refusal(), o.Panic, o.EventKinds()),
			map[string]any{"identity": id, "token": string(tok), "obs": o})
	}
}

// ---- history arm ---------------------------------------------------------

type stream struct {
	owner        we.Identity
	m            we.MethodKind
	cursor, call []byte
	tag          string
}

type probe struct {
	s        *stream
	cursor   []byte // frozen copy
	by       we.Identity
	first    bool
	accepted bool
	n        int
}

func historyArm(r *mon.Run) {
	n := r.N(1500, 40000)
	methods := []we.MethodKind{we.MethodByName("exch"), we.MethodByName("prod"), we.MethodByName("dyne")}
	pool := []we.Identity{we.Anon, we.Auth("", "anonymous"), we.Auth("bearer", "alice"), we.Auth("jwt", "alice"), we.Auth("bearer", "bob"), we.Auth("", "")}
	log := mon.NewLog()
	var probesRepeated, evictedAccepted int64
	for h := 0; h < n; h++ {
		rng := r.Rand(3, uint64(h))
		cache := []int{0, 1, 4096}[h%3]
		log.Reset()
		in := we.NewInstance(log, fmt.Sprintf("h%d", h), we.Opt{CacheEntries: cache, TTL: time.Hour})
		ids := append([]we.Identity(nil), pool...)
		for i := 0; i < 2; i++ {
			ids = append(ids, randIdentity(rng))
		}
		var streams []*stream
		var probes []*probe
		var shape strings.Builder
		steps := 12 + rng.IntN(30)
		for step := 0; step < steps; step++ {
			act := rng.IntN(10)
			switch {
			case act < 3 || len(streams) == 0: // mint
				id := ids[rng.IntN(len(ids))]
				m := methods[rng.IntN(len(methods))]
				tag := fmt.Sprintf("h%d-s%d", h, len(streams))
				o := in.Init(m.Name, id, int64(rng.IntN(50)), tag, nil)
				if !o.Accepted() {
					r.Fatal("history init refused: %s", o.Refusal())
				}
				s := &stream{owner: id, m: m, cursor: o.Cursor, call: o.Call, tag: tag}
				streams = append(streams, s)
				// a fixed probe on this stream by some identity (often a different one)
				by := ids[rng.IntN(len(ids))]
				probes = append(probes, &probe{s: s, cursor: o.Cursor, by: by, first: true})
				shape.WriteString("M")
			case act < 6: // legit turn
				s := streams[rng.IntN(len(streams))]
				o := in.Continue(we.ContFor(s.m, s.owner, s.cursor, s.call, int64(step)))
				if !o.Accepted() || o.Cursor == nil {
					r.Violation("history:owner-refused", fmt.Sprintf("owner %s refused on its own stream after interleaved traffic (cache %d): %s", s.owner, cache, o.Refusal()),
						map[string]any{"history": h, "step": step, "cache": cache, "shape": shape.String(), "obs": o})
					continue
				}
				if cache == 1 && len(streams) > 1 {
					evictedAccepted++
					r.Class("history:evicted-then-accepted")
				}
				s.cursor = o.Cursor
				shape.WriteString("T")
			default: // repeat a fixed probe
				p := probes[rng.IntN(len(probes))]
				o := in.Continue(we.ContFor(p.s.m, p.by, p.cursor, p.s.call, 1))
				acc := o.Accepted() || stateRan(o)
				want := p.by.Key() == p.s.owner.Key()
				shape.WriteString("P")
				if o.Panic != "" {
					r.Violation("history:panic", "probe panicked: "+o.Panic, map[string]any{"history": h, "step": step, "obs": o})
					continue
				}
				if acc != want {
					dir := "accepted:other-identity"
					if want {
						dir = "refused:same-identity"
					}
					r.Violation("history:"+dir, fmt.Sprintf("tokens minted for %s presented by %s at step %d (cache %d): accepted=%v, model says %v (%s)", p.s.owner, p.by, step, cache, acc, want, o.Refusal()),
						map[string]any{"history": h, "seed": r.Seed(), "step": step, "cache": cache, "shape": shape.String(), "minted_for": p.s.owner, "presented_by": p.by, "cursor": string(p.cursor), "call": string(p.s.call), "obs": o})
				}
				if !p.first && acc != p.accepted {
					r.Violation("history:decision-changed", fmt.Sprintf("the same presentation (tokens of %s by %s) changed from accepted=%v to %v after interleaved traffic (cache %d)", p.s.owner, p.by, p.accepted, acc, cache),
						map[string]any{"history": h, "seed": r.Seed(), "step": step, "cache": cache, "shape": shape.String(), "obs": o})
				}
				if p.n > 0 {
					probesRepeated++
					r.Class("history:probe-repeated")
				}
				p.first, p.accepted = false, acc
				p.n++
			}
		}
		r.Case(fmt.Sprintf("hist|%d|%s", cache, shape.String()))
	}
	r.Count("history.probes_repeated", probesRepeated)
	r.Count("history.owner_turns_with_cache1_and_rivals", evictedAccepted)
	r.Sample(map[string]any{"arm": "history", "histories": n, "pool": pool})
}
