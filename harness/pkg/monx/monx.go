// Package monx re-exports the parts of internal/mon that checks living in a
// different module (verif/harness-storage: C33, which needs the heavy S3/GCS
// SDKs) use. Go forbids importing another module's internal packages; this is
// the one public door. Aliases only — no behaviour of its own.
package monx

import "verif/harness/internal/mon"

type (
	Run       = mon.Run
	ChildFunc = mon.ChildFunc
	ChildOpt  = mon.ChildOpt
	Outcome   = mon.Outcome
)

func Start(id string) *Run             { return mon.Start(id) }
func ChildMain(h map[string]ChildFunc) { mon.ChildMain(h) }
func IsChild() bool                    { return mon.IsChild() }
func Hash(parts ...string) string      { return mon.Hash(parts...) }
func RunIsolated(kind string, in [][]byte, o ChildOpt) ([]Outcome, error) {
	return mon.RunIsolated(kind, in, o)
}
