#!/usr/bin/env bash
# One-time setup after a fresh restore (offline): builds every check binary,
# which also warms the Go build cache. Every ./check run rebuilds anyway.
set -u
cd "$(dirname "$0")"
. ./goenv.sh
mkdir -p .build .logs evidence replays
rc=0
for mod in harness harness-storage; do
  [ -d "$mod/cmd" ] || continue
  for d in "$mod"/cmd/*/; do
    id="$(basename "$d")"
    VARIANT=plain
    [ -f "$d/check.conf" ] && VARIANT="$(. "$d/check.conf"; echo "$VARIANT")"
    case "$VARIANT" in
      plain) FLAGS=(-tags verif) ;;
      race) FLAGS=(-race -tags verif) ;;
      leak) FLAGS=(-race -tags "verif leakcheck") ;;
    esac
    mkdir -p ".build/$VARIANT"
    echo "setup: building $mod/cmd/$id ($VARIANT)"
    (cd "$mod" && "$GO" build "${FLAGS[@]}" -o "../.build/$VARIANT/$id" "./cmd/$id") || { echo "setup: build of $id failed"; rc=1; }
  done
done
exit $rc
