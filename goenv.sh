# Sourced by ./check and setup: offline Go environment + toolchain selection.
export GOFLAGS=-mod=mod GOPROXY=off GOSUMDB=off GOTOOLCHAIN=local CGO_ENABLED=1
export GONOSUMDB='*' GONOSUMCHECK=1 GOFLAGS="-mod=mod"
_gotc=/root/go/pkg/mod/golang.org/toolchain@v0.0.1-go1.26.0.linux-amd64/bin/go
if [ -x "$_gotc" ]; then GO="$_gotc"; elif command -v go1.26 >/dev/null 2>&1; then GO="$(command -v go1.26)"; else GO=go; fi
export GO
